(* FaultProofs.v - an I/O error anywhere inside an operation: the events performed so far (a prefix of the program) followed by what
   the handlers do (finally blocks and context managers: close the open handles - which flushes whatever their user-space buffers
   hold -, remove the sandbox file, roll the session back).  Handler events only ever append unsynced bytes to pack files and touch
   the sandbox and the handle-local state, so every predicate the program theorems carry along their traces survives them. *)
From Coq Require Import List ZArith NArith Arith Bool Lia.
From DOS Require Import Base Store StoreProofs StoreLemmas Mono MonoStep Programs ProgramsProofs PackProofs MaintProofs.
Import ListNotations.

Section FP.
Variable H : bytes -> key.
Variable inflate : bytes -> option bytes.
Notation Inv := (Inv H inflate).
Notation stored := (stored inflate).
Notation Good := (Good H inflate).
Notation KeepOthers := (KeepOthers H inflate).

Definition handler_ev (e : event) : bool :=
  match e with EClose _ | EFlush _ | ERollback | EUnlinkSand _ => true | _ => false end.

(* w2 is w1 with unsynced bytes appended to some packs *)
Definition appended (w1 w2 : world) : Prop :=
  loose w2 = loose w1 /\ db w2 = db w1 /\
  forall id, get_pack w2 id = get_pack w1 id \/
             exists f x, get_pack w1 id = Some f /\ get_pack w2 id = Some (mkFile (fdata f ++ x) (fsynced f)).

Lemma appended_refl w : appended w w.
Proof. split; [reflexivity|]. split; [reflexivity|]. intros id. left. reflexivity. Qed.

Lemma appended_trans a b c : appended a b -> appended b c -> appended a c.
Proof.
  intros (L1 & D1 & P1) (L2 & D2 & P2). split; [congruence|]. split; [congruence|].
  intros id. destruct (P2 id) as [E2|(f2 & x2 & G2 & E2)]; destruct (P1 id) as [E1|(f1 & x1 & G1 & E1)].
  - left. congruence.
  - right. exists f1, x1. split; [exact G1|congruence].
  - right. exists f2, x2. split; [congruence|exact E2].
  - right. exists f1, (x1 ++ x2). split; [exact G1|]. rewrite E2. rewrite E1 in G2. inversion G2; subst f2. cbn [fdata fsynced].
    rewrite app_assoc. reflexivity.
Qed.

Lemma core_appended w1 w2 : core w2 = core w1 -> appended w1 w2.
Proof.
  unfold core. intros E. inversion E as [[E1 E2 E3]]. split; [exact E1|]. split; [exact E3|].
  intros id. left. unfold get_pack. rewrite E2. reflexivity.
Qed.

Lemma flush_appended w l h : appended w (fst (flush_h w l h)).
Proof.
  unfold flush_h. destruct (get_buf l h) as [b|]; [|apply appended_refl].
  destruct (get_file w h) as [f|] eqn:Hf; [|apply appended_refl]. cbn [fst].
  destruct h as [n|id]; cbn [put_file get_file] in *.
  - apply core_appended. reflexivity.
  - split; [reflexivity|]. split; [reflexivity|]. intros id'. destruct (Z.eq_dec id' id) as [->|Hne].
    + right. exists f, b. split; [exact Hf|]. unfold get_pack. cbn [packs set_packs]. apply aget_aset_eq.
    + left. unfold get_pack. cbn [packs set_packs]. apply aget_aset_neq. exact Hne.
Qed.

Lemma handler_appended s e : handler_ev e = true -> appended (fst s) (fst (apply_ev s e)).
Proof.
  destruct s as [w l]. destruct e; cbn [handler_ev]; try discriminate; intros _; cbn [apply_ev fst].
  - apply flush_appended.
  - pose proof (flush_appended w l h) as A. destruct (flush_h w l h) as [w' l']. exact A.
  - apply core_appended. reflexivity.
  - apply appended_refl.
Qed.

Lemma handlers_appended : forall hs s, forallb handler_ev hs = true -> appended (fst s) (fst (run_events s hs)).
Proof.
  induction hs as [|e t IH]; intros s Hb; [apply appended_refl|].
  cbn [forallb] in Hb. apply andb_prop in Hb as [He Ht]. cbn [run_events fold_left].
  eapply appended_trans; [apply handler_appended; exact He|]. apply IH. exact Ht.
Qed.

(* ---- what survives appending ---- *)
Lemma row_ok_appended w1 w2 r : appended w1 w2 -> row_ok H inflate w1 r -> row_ok H inflate w2 r.
Proof.
  intros (_ & _ & P) (f0 & c & Hp0 & Hle & Hd & Hh & Hs & Hc).
  destruct (P (rpack r)) as [E|(f & x & G & E)].
  - exists f0, c. rewrite E. repeat split; auto.
  - rewrite G in Hp0. inversion Hp0; subst f0. exists (mkFile (fdata f ++ x) (fsynced f)), c. cbn [fdata]. repeat split; auto.
    + rewrite app_length. lia.
    + rewrite slice_app_l by lia. exact Hd.
Qed.

Lemma Inv_appended w1 w2 : appended w1 w2 -> Inv w1 -> Inv w2.
Proof.
  intros A (Hnd & Hok & Hpw & Hl). pose proof A as (L & D & _). unfold Store.Inv. rewrite L, D.
  repeat split; auto. rewrite Forall_forall in *. intros r Hr. eapply row_ok_appended; eauto.
Qed.

Lemma read_row_appended w1 w2 r : appended w1 w2 -> row_ok H inflate w1 r -> read_row inflate w2 r = read_row inflate w1 r.
Proof.
  intros (_ & _ & P) (f0 & c & Hp0 & Hle & Hd & _). unfold Store.read_row.
  destruct (P (rpack r)) as [E|(f & x & G & E)]; [rewrite E; reflexivity|].
  rewrite E, G. rewrite G in Hp0. inversion Hp0; subst f0. cbn [fdata]. rewrite app_length.
  destruct (Nat.leb_spec (roff r + rlen r) (length (fdata f) + length x)); [|lia].
  destruct (Nat.leb_spec (roff r + rlen r) (length (fdata f))); [|lia].
  rewrite slice_app_l by lia. reflexivity.
Qed.

Lemma stored_appended w1 w2 k : appended w1 w2 -> Inv w1 -> stored w2 k = stored w1 k.
Proof.
  intros A (_ & Hok & _). pose proof A as (L & D & _). unfold Store.stored, get_loose. rewrite L, D.
  destruct (find_row (db w1) k) as [r|] eqn:F; [|reflexivity].
  apply find_row_some in F as [Hin _]. rewrite Forall_forall in Hok. apply read_row_appended; auto.
Qed.

Lemma Rel_appended X w1 w2 : appended w1 w2 -> Rel X w1 -> Rel X w2.
Proof. intros (L & D & _) (R1 & R2). unfold Rel, get_loose. rewrite L, D. split; assumption. Qed.

(* appended bytes are not synced: the power-loss image does not see them *)
Lemma appended_pl w1 w2 : appended w1 w2 -> appended (power_loss w1) (power_loss w2).
Proof.
  intros (L & D & P). split; [cbn [loose power_loss]; rewrite L; reflexivity|]. split; [cbn [db power_loss]; exact D|].
  intros id. left. rewrite !get_pack_pl. destruct (P id) as [E|(f & x & G & E)]; [rewrite E; reflexivity|].
  rewrite E, G. reflexivity.
Qed.

Lemma Good_appended w fs w1 w2 : appended w1 w2 -> Good w fs w1 -> Good w fs w2.
Proof.
  intros A (G1 & G2 & G3). split; [eapply Inv_appended; eauto|]. split; [eapply Rel_appended; eauto|].
  intros F P. destruct (G3 F P) as (C1 & C2). pose proof (appended_pl _ _ A) as Apl.
  split; [eapply Inv_appended; eauto|eapply Rel_appended; eauto].
Qed.

Lemma KeepOthers_appended w ks w1 w2 : appended w1 w2 -> KeepOthers w ks w1 -> KeepOthers w ks w2.
Proof.
  intros A (K1 & K2). split; [eapply Inv_appended; eauto|].
  intros k c Hn Hs. rewrite (stored_appended w1 w2 k A K1). auto.
Qed.

(* ---- the fault theorem, generic in the predicate carried along the trace ---- *)
Theorem fault_anywhere (P : world -> Prop) s prog :
  (forall w1 w2, appended w1 w2 -> P w1 -> P w2) ->
  always P s prog ->
  forall n hs, forallb handler_ev hs = true -> P (fst (run_events s (firstn n prog ++ hs))).
Proof.
  intros HP HA n hs Hh. unfold run_events. rewrite fold_left_app.
  eapply HP; [apply handlers_appended; exact Hh|]. apply HA.
Qed.

(* ... and every later boundary of the handler sequence as well *)
Theorem fault_anywhere_always (P : world -> Prop) s prog :
  (forall w1 w2, appended w1 w2 -> P w1 -> P w2) ->
  always P s prog ->
  forall n hs, forallb handler_ev hs = true -> always P s (firstn n prog ++ hs).
Proof.
  intros HP HA n hs Hh m. rewrite firstn_app.
  assert (Hh' : forallb handler_ev (firstn (m - length (firstn n prog)) hs) = true) by (apply forallb_firstn; exact Hh).
  rewrite firstn_firstn.
  exact (fault_anywhere P s prog HP HA (Nat.min m n) _ Hh').
Qed.

Hypothesis H_inj : forall a b, H a = H b -> a = b.

(* for the programs whose traces carry Good: after a fault at ANY point and ANY handler sequence the invariant holds and everything
   stored before the operation started still reads back, byte for byte *)
Theorem fault_Good_safe w fs s prog :
  Inv w -> always (Good w fs) s prog ->
  forall n hs, forallb handler_ev hs = true ->
  let w' := fst (run_events s (firstn n prog ++ hs)) in
  Inv w' /\ (forall k c, stored w k = Some c -> stored w' k = Some c).
Proof.
  intros HI HA n hs Hh. cbn zeta.
  destruct (fault_anywhere (Good w fs) s prog (fun a b A G => Good_appended w fs a b A G) HA n hs Hh) as (A & B & _).
  split; [exact A|]. intros k c Hs. exact (stored_preserved H inflate H_inj w _ k c HI A B Hs).
Qed.

(* add_object / add_streamed_object *)
Theorem fault_add_loose_safe w l n chunks :
  Inv w -> forall m hs, forallb handler_ev hs = true ->
  let w' := fst (run_events (w, l) (firstn m (p_add_loose H w n chunks) ++ hs)) in
  Inv w' /\ (forall k c, stored w k = Some c -> stored w' k = Some c).
Proof.
  intros HI m hs Hh.
  set (P := fun w' : world => Inv w' /\ (forall k c, stored w k = Some c -> stored w' k = Some c)).
  assert (HA : always P (w, l) (p_add_loose H w n chunks)).
  { intros j. destruct (add_loose_crash_safe H inflate H_inj w l n chunks j HI) as (A & B & _). split; assumption. }
  assert (HP : forall w1 w2, appended w1 w2 -> P w1 -> P w2).
  { intros w1 w2 A (P1 & P2). split; [eapply Inv_appended; eauto|]. intros k c Hs. rewrite (stored_appended w1 w2 k A P1). auto. }
  exact (fault_anywhere P (w, l) _ HP HA m hs Hh).
Qed.

End FP.
