(* StoreLemmas.v - model-level facts about the index semantics and the abstraction `stored` *)
From Coq Require Import List ZArith NArith Arith Bool Lia.
From DOS Require Import Base Store StoreProofs.
Import ListNotations.

Section Lemmas.
Variable H : bytes -> key.
Variable inflate : bytes -> option bytes.
Notation Inv := (Inv H inflate).
Notation row_ok := (row_ok H inflate).
Notation stored := (stored inflate).
Notation read_row := (read_row inflate).

(* ---- association lists ---- *)
Lemma aget_aset_eq {V} (l : list (Z * V)) k v : aget Z.eqb (aset Z.eqb l k v) k = Some v.
Proof. unfold aset; cbn. rewrite Z.eqb_refl. reflexivity. Qed.

Lemma aget_adel_neq {V} (l : list (Z * V)) k k' : k' <> k -> aget Z.eqb (adel Z.eqb l k) k' = aget Z.eqb l k'.
Proof.
  intros Hne. induction l as [|[a v] t IH]; cbn; [reflexivity|].
  destruct (Z.eqb_spec k a) as [->|Hka].
  - rewrite IH. destruct (Z.eqb_spec k' a); [congruence|reflexivity].
  - cbn. destruct (Z.eqb_spec k' a); [reflexivity|exact IH].
Qed.

Lemma aget_aset_neq {V} (l : list (Z * V)) k k' v : k' <> k -> aget Z.eqb (aset Z.eqb l k v) k' = aget Z.eqb l k'.
Proof.
  intros Hne. unfold aset; cbn. destruct (Z.eqb_spec k' k); [congruence|]. apply aget_adel_neq; auto.
Qed.

(* ---- find_row ---- *)
Lemma find_row_some d k r : find_row d k = Some r -> In r d /\ rkey r = k.
Proof. unfold find_row. intros Hf. apply find_some in Hf as [Hin He]. apply N.eqb_eq in He. auto. Qed.

Lemma find_row_in d r : NoDup (map rkey d) -> In r d -> find_row d (rkey r) = Some r.
Proof.
  induction d as [|x t IH]; intros Hnd Hin; [destruct Hin|].
  cbn in Hnd. inversion Hnd as [|? ? Hni Hnd']; subst.
  unfold find_row; cbn. destruct (N.eqb_spec (rkey x) (rkey r)) as [E|E].
  - destruct Hin as [->|Hin]; [reflexivity|].
    exfalso. apply Hni. rewrite E. apply in_map; auto.
  - destruct Hin as [->|Hin]; [congruence|]. apply IH; auto.
Qed.

Lemma find_row_none d k : find_row d k = None -> ~ In k (map rkey d).
Proof.
  unfold find_row. intros Hf Hin. apply in_map_iff in Hin as [r [Hk Hr]].
  eapply find_none in Hf; eauto. cbn in Hf. rewrite Hk, N.eqb_refl in Hf. discriminate.
Qed.

(* ---- C03: the documented manual recovery (SQL query + byte slice + zlib) returns the object ---- *)
Lemma row_ok_read w r : row_ok w r -> exists c, read_row w r = Some c /\ H c = rkey r /\ length c = rsize r.
Proof.
  intros (f & c & Hp & Hle & Hd & Hh & Hs & _). exists c. unfold Store.read_row. rewrite Hp.
  destruct (Nat.leb_spec (roff r + rlen r) (length (fdata f))); [|lia]. auto.
Qed.

Theorem manual_recovery w r : Inv w -> In r (db w) ->
  exists c, stored w (rkey r) = Some c /\ H c = rkey r /\ length c = rsize r.
Proof.
  intros (Hnd & Hok & _ & _) Hin. rewrite Forall_forall in Hok.
  destruct (row_ok_read w r (Hok r Hin)) as (c & Hr & Hh & Hs).
  exists c. unfold Store.stored. rewrite (find_row_in _ _ Hnd Hin). auto.
Qed.

(* every key the container exposes reads back as bytes with that digest (C02/C03/C12) *)
Theorem stored_sound w k c : Inv w -> stored w k = Some c -> H c = k.
Proof.
  intros HI Hs. pose proof HI as (Hnd & Hok & _ & Hl). unfold Store.stored in Hs.
  destruct (find_row (db w) k) as [r|] eqn:E.
  - apply find_row_some in E as [Hin <-]. rewrite Forall_forall in Hok.
    destruct (row_ok_read w r (Hok r Hin)) as (c' & Hr & Hh & _). congruence.
  - destruct (get_loose w k) as [f|] eqn:El; [|discriminate]. inversion Hs; subst.
    rewrite Forall_forall in Hl.
    assert (Hin : In (k, f) (loose w)).
    { unfold get_loose in El. clear -El. induction (loose w) as [|[a v] t IH]; cbn in El; [discriminate|].
      destruct (N.eqb_spec k a); [inversion El; subst; left; reflexivity|right; auto]. }
    apply (Hl _ Hin).
Qed.

(* ---- C09 / C14: the UNIQUE index: whatever is inserted, no key is ever indexed twice, existing rows stay ---- *)
Lemma has_key_in d k : has_key d k = true <-> In k (map rkey d).
Proof.
  unfold has_key. rewrite existsb_exists. split.
  - intros [r [Hr He]]. apply N.eqb_eq in He. subst. apply in_map; auto.
  - intros Hin. apply in_map_iff in Hin as [r [<- Hr]]. exists r. split; auto. apply N.eqb_refl.
Qed.

Lemma NoDup_app_one (l : list key) x : NoDup l -> ~ In x l -> NoDup (l ++ [x]).
Proof.
  induction l as [|a t IH]; intros Hnd Hni; cbn.
  - constructor; [intros []|constructor].
  - inversion Hnd; subst. constructor.
    + intros Hin. apply in_app_or in Hin as [Hin|[<-|[]]]; [auto|]. apply Hni; left; reflexivity.
    + apply IH; auto. intros Hin; apply Hni; right; auto.
Qed.

Theorem insert_rows_nodup ig rs : forall d, NoDup (map rkey d) -> NoDup (map rkey (insert_rows ig d rs)).
Proof.
  induction rs as [|r t IH]; intros d Hnd; cbn; [exact Hnd|].
  destruct (has_key d (rkey r)) eqn:E; [apply IH; auto|].
  apply IH. rewrite map_app. cbn. apply NoDup_app_one; auto.
  intros Hin. apply has_key_in in Hin. congruence.
Qed.

Theorem insert_rows_keeps ig rs : forall d r, In r d -> In r (insert_rows ig d rs).
Proof.
  induction rs as [|x t IH]; intros d r Hin; cbn; [exact Hin|].
  destruct (has_key d (rkey x)); apply IH; auto. apply in_or_app; auto.
Qed.

(* an inserted row whose key was not yet indexed (and is not repeated earlier in the batch) is indexed afterwards *)
Theorem insert_rows_adds ig : forall rs d r, In r rs -> In (rkey r) (map rkey (insert_rows ig d rs)).
Proof.
  induction rs as [|x t IH]; intros d r Hin; [destruct Hin|].
  cbn. destruct Hin as [->|Hin].
  - destruct (has_key d (rkey r)) eqn:E.
    + apply has_key_in in E. apply in_map_iff in E as [r0 [Hk Hr0]].
      rewrite <- Hk. apply in_map. apply insert_rows_keeps; auto.
    + apply in_map. apply insert_rows_keeps. apply in_or_app. right; left; reflexivity.
  - destruct (has_key d (rkey x)); apply IH; auto.
Qed.

(* ---- C11: DELETE removes exactly the requested keys ---- *)
Theorem delete_spec d ks r : In r (apply_sql d (SDelete ks)) <-> In r d /\ ~ In (rkey r) ks.
Proof.
  cbn. rewrite filter_In. split.
  - intros [Hin Hb]. split; auto. intros Hk. apply negb_true_iff in Hb.
    assert (existsb (N.eqb (rkey r)) ks = true) by (apply existsb_exists; exists (rkey r); split; auto; apply N.eqb_refl).
    congruence.
  - intros [Hin Hn]. split; auto. apply negb_true_iff. apply not_true_is_false. intros Hb.
    apply existsb_exists in Hb as [x [Hx He]]. apply N.eqb_eq in He. subst. auto.
Qed.

(* ---- C10 / C11: repack statements never change which keys are indexed ---- *)
Theorem repoint_keys d o n : map rkey (apply_sql d (SRepoint o n)) = map rkey d.
Proof. cbn. rewrite map_map. apply map_ext. intros r. destruct (Z.eqb (rpack r) o); reflexivity. Qed.

Theorem updaterows_keys d rs : map rkey (apply_sql d (SUpdateRows rs)) = map rkey d.
Proof.
  cbn. rewrite map_map. apply map_ext. intros r.
  destruct (find_row rs (rkey r)) as [r'|] eqn:E; [|reflexivity].
  apply find_row_some in E as [_ E]. exact E.
Qed.

(* ---- appending to a pack (also: a user-space buffer that had partly reached the OS at a crash) keeps the
        invariant and what every key reads back as (C13 basis, C05 spill tolerance) ---- *)
Definition append_pack (w : world) (id : Z) (f : file) (x s : bytes) : world :=
  set_packs w (aset Z.eqb (packs w) id (mkFile (fdata f ++ x) s)).

Lemma row_ok_append w id f x s r : get_pack w id = Some f -> row_ok w r -> row_ok (append_pack w id f x s) r.
Proof.
  intros Hp (f0 & c & Hp0 & Hle & Hd & Hh & Hs & Hc).
  destruct (Z.eq_dec (rpack r) id) as [E|E].
  - rewrite E in Hp0. rewrite Hp in Hp0. inversion Hp0; subst f0.
    exists (mkFile (fdata f ++ x) s), c. cbn [fdata]. repeat split; auto.
    + unfold get_pack, append_pack. cbn [packs set_packs]. rewrite E. apply aget_aset_eq.
    + rewrite app_length. lia.
    + rewrite slice_app_l by lia. exact Hd.
  - exists f0, c. repeat split; auto.
    unfold get_pack, append_pack. cbn [packs set_packs]. unfold get_pack in Hp0. rewrite aget_aset_neq; auto.
Qed.

Theorem Inv_append_pack w id f x s : Inv w -> get_pack w id = Some f -> Inv (append_pack w id f x s).
Proof.
  intros (Hnd & Hok & Hpw & Hl) Hp. unfold Store.Inv. cbn [db append_pack set_packs loose].
  repeat split; auto.
  rewrite Forall_forall in *. intros r Hr. apply row_ok_append; auto.
Qed.

Theorem read_row_append w id f x s r : get_pack w id = Some f -> row_ok w r ->
  read_row (append_pack w id f x s) r = read_row w r.
Proof.
  intros Hp (f0 & c & Hp0 & Hle & Hd & _).
  unfold Store.read_row. destruct (Z.eq_dec (rpack r) id) as [E|E].
  - rewrite E in *. rewrite Hp in Hp0. inversion Hp0; subst f0.
    unfold get_pack, append_pack in *. cbn [packs set_packs]. rewrite aget_aset_eq. rewrite Hp. cbn [fdata].
    rewrite app_length.
    destruct (Nat.leb_spec (roff r + rlen r) (length (fdata f) + length x)); [|lia].
    destruct (Nat.leb_spec (roff r + rlen r) (length (fdata f))); [|lia].
    rewrite slice_app_l by lia. reflexivity.
  - unfold get_pack, append_pack. cbn [packs set_packs]. rewrite aget_aset_neq; auto.
Qed.

End Lemmas.
