(* StreamsProofs.v - simulation of the stream models by the in-memory reference *)
From Coq Require Import List ZArith Lia Bool.
From DOS Require Import Base Streams.
Import ListNotations.
Open Scope Z_scope.

(* ---------- slicing ---------- *)
Lemma zlen_app {A} (a b : list A) : zlen (a ++ b) = zlen a + zlen b.
Proof. unfold zlen. rewrite app_length. lia. Qed.
Lemma zlen_nonneg {A} (a : list A) : 0 <= zlen a.
Proof. unfold zlen. lia. Qed.

Lemma zslice_mid {A} (pre c post : list A) p k :
  0 <= p -> 0 <= k -> p + k <= zlen c ->
  zslice (pre ++ c ++ post) (zlen pre + p) k = zslice c p k.
Proof.
  intros Hp Hk H. unfold zslice, slice, zlen in *.
  replace (Z.to_nat (Z.of_nat (length pre) + p)) with (length pre + Z.to_nat p)%nat by lia.
  rewrite skipn_app. rewrite skipn_all2 by lia. cbn [app].
  replace (length pre + Z.to_nat p - length pre)%nat with (Z.to_nat p) by lia.
  rewrite skipn_app. rewrite firstn_app. rewrite skipn_length.
  replace (Z.to_nat k - (length c - Z.to_nat p))%nat with 0%nat by lia.
  cbn. rewrite app_nil_r. reflexivity.
Qed.

Lemma zslice_len {A} (c : list A) p k : 0 <= p -> 0 <= k -> p + k <= zlen c -> zlen (zslice c p k) = k.
Proof.
  intros Hp Hk H. unfold zslice, slice, zlen in *. rewrite firstn_length, skipn_length. lia.
Qed.

Lemma zslice_zero {A} (c : list A) p : zslice c p 0 = [].
Proof. unfold zslice, slice. cbn. reflexivity. Qed.

(* ---------- in-range programs and the rejecting reference ---------- *)
Definition resolved (b : bio) (t w : Z) : Z :=
  if w =? 0 then t else if w =? 1 then bpos b + t else zlen (bcontent b) + t.
Definition valid_whence (w : Z) : bool := (w =? 0) || (w =? 1) || (w =? 2).
Definition in_range (b : bio) (o : op) : bool :=
  match o with
  | Seek t w => valid_whence w && (0 <=? resolved b t w) && (resolved b t w <=? zlen (bcontent b))
  | _ => true
  end.
(* the reference that rejects out-of-range seeks leaving the position untouched *)
Definition bio_rej (b : bio) (o : op) : res * bio := if in_range b o then bio_step b o else (RErr, b).

(* ---------- PackedObjectReader ---------- *)
Definition porR (pre c post : bytes) (s : por) (b : bio) : Prop :=
  pack s = pre ++ c ++ post /\ poff s = zlen pre /\ plen s = zlen c /\ bcontent b = c /\
  fpos s = poff s + bpos b /\ ppos s = bpos b /\ 0 <= bpos b <= zlen c.

Lemma por_init_R pre c post :
  porR pre c post (por_init (pre ++ c ++ post) (zlen pre) (zlen c)) {| bcontent := c; bpos := 0 |}.
Proof. unfold porR, por_init; cbn. pose proof (zlen_nonneg c). repeat split; lia. Qed.

Lemma por_step_sim pre c post s b o :
  porR pre c post s b ->
  let '(r, s') := por_step s o in
  let '(rb, b') := bio_rej b o in
  r = rb /\ porR pre c post s' b'.
Proof.
  intros (Hpk & Hoff & Hlen & Hc & Hf & Hp & Hr).
  pose proof (zlen_nonneg pre) as Npre. pose proof (zlen_nonneg post) as Npost.
  assert (Hpl : zlen (pack s) = zlen pre + zlen c + zlen post) by (rewrite Hpk, !zlen_app; lia).
  destruct o as [n | t w | ]; unfold bio_rej; cbn [in_range por_step bio_step].
  - (* Read *)
    unfold por_read, fh_read, por_update. rewrite Hc.
    set (k := if n <? 0 then Z.max 0 (zlen c - bpos b) else Z.min n (Z.max 0 (zlen c - bpos b))).
    assert (Hk : (if n <? 0 then plen s - ppos s else Z.min (plen s - ppos s) n) = k)
      by (unfold k; destruct (n <? 0) eqn:E; lia).
    rewrite Hk.
    assert (Hk0 : (n <? 0) = false -> 0 <= n -> 0 <= k) by (intros; unfold k; destruct (n <? 0); lia).
    destruct (n <? 0) eqn:En.
    + assert (0 <= k /\ bpos b + k <= zlen c) by (unfold k; lia).
      assert (Hkk : (if k <? 0 then Z.max 0 (zlen (pack s) - fpos s) else Z.min k (Z.max 0 (zlen (pack s) - fpos s))) = k)
        by (destruct (k <? 0) eqn:E; lia).
      rewrite Hkk.
      replace ((fpos s + k - poff s <=? plen s) && (0 <=? fpos s + k - poff s)) with true by lia.
      split.
      * f_equal. rewrite Hpk, Hf, Hoff. apply zslice_mid; lia.
      * unfold porR; cbn. repeat split; auto; lia.
    + (* n >= 0 *)
      assert (0 <= k /\ bpos b + k <= zlen c) by (unfold k; lia).
      assert (Hkk : (if k <? 0 then Z.max 0 (zlen (pack s) - fpos s) else Z.min k (Z.max 0 (zlen (pack s) - fpos s))) = k)
        by (destruct (k <? 0) eqn:E; lia).
      rewrite Hkk.
      replace ((fpos s + k - poff s <=? plen s) && (0 <=? fpos s + k - poff s)) with true by lia.
      split.
      * f_equal. rewrite Hpk, Hf, Hoff. apply zslice_mid; lia.
      * unfold porR; cbn. repeat split; auto; lia.
  - (* Seek *)
    unfold por_seek, por_update, resolved, valid_whence. rewrite Hc.
    destruct (w =? 0) eqn:E0; [|destruct (w =? 1) eqn:E1; [|destruct (w =? 2) eqn:E2]]; cbn [orb negb andb].
    + (* whence 0 *)
      replace (w =? 1) with false by lia. replace (w =? 2) with false by lia.
      destruct (0 <=? t) eqn:A; destruct (t <=? zlen c) eqn:B; cbn [andb].
      * replace (t <? 0) with false by lia. replace (t >? plen s) with false by lia.
        replace (poff s + t <? 0) with false by lia.
        replace ((poff s + t - poff s <=? plen s) && (0 <=? poff s + t - poff s)) with true by lia.
        split; [reflexivity|]. unfold porR; cbn. repeat split; auto; lia.
      * replace (t <? 0) with false by lia. replace (t >? plen s) with true by lia.
        split; [reflexivity|]. unfold porR; repeat split; auto; lia.
      * replace (t <? 0) with true by lia. split; [reflexivity|]. unfold porR; repeat split; auto; lia.
      * replace (t <? 0) with true by lia. split; [reflexivity|]. unfold porR; repeat split; auto; lia.
    + (* whence 1 *)
      replace (w =? 2) with false by lia.
      replace (fpos s - poff s + t) with (bpos b + t) by lia.
      destruct (0 <=? bpos b + t) eqn:A; destruct (bpos b + t <=? zlen c) eqn:B; cbn [andb].
      * replace (bpos b + t <? 0) with false by lia. replace (bpos b + t >? plen s) with false by lia.
        replace (poff s + (bpos b + t) <? 0) with false by lia.
        replace ((poff s + (bpos b + t) - poff s <=? plen s) && (0 <=? poff s + (bpos b + t) - poff s)) with true by lia.
        split; [f_equal; lia|]. unfold porR; cbn. repeat split; auto; lia.
      * replace (bpos b + t <? 0) with false by lia. replace (bpos b + t >? plen s) with true by lia.
        split; [reflexivity|]. unfold porR; repeat split; auto; lia.
      * replace (bpos b + t <? 0) with true by lia. split; [reflexivity|]. unfold porR; repeat split; auto; lia.
      * replace (bpos b + t <? 0) with true by lia. split; [reflexivity|]. unfold porR; repeat split; auto; lia.
    + (* whence 2 *)
      rewrite Hlen.
      destruct (0 <=? zlen c + t) eqn:A; destruct (zlen c + t <=? zlen c) eqn:B; cbn [andb].
      * replace (zlen c + t <? 0) with false by lia. replace (zlen c + t >? zlen c) with false by lia.
        replace (poff s + (zlen c + t) <? 0) with false by lia.
        replace ((poff s + (zlen c + t) - poff s <=? zlen c) && (0 <=? poff s + (zlen c + t) - poff s)) with true by lia.
        split; [f_equal; lia|]. unfold porR; cbn. repeat split; auto; lia.
      * replace (zlen c + t <? 0) with false by lia. replace (zlen c + t >? zlen c) with true by lia.
        split; [reflexivity|]. unfold porR; repeat split; auto; lia.
      * replace (zlen c + t <? 0) with true by lia. split; [reflexivity|]. unfold porR; repeat split; auto; lia.
      * replace (zlen c + t <? 0) with true by lia. split; [reflexivity|]. unfold porR; repeat split; auto; lia.
    + (* invalid whence *)
      split; [reflexivity|]. unfold porR; repeat split; auto; lia.
  - (* Tell *)
    split; [f_equal; lia|]. unfold porR; repeat split; auto; lia.
Qed.

Theorem por_run_sim pre c post : forall ops s b,
  porR pre c post s b -> run_ops por_step s ops = run_ops bio_rej b ops.
Proof.
  induction ops as [|o ops IH]; intros s b R; [reflexivity|].
  cbn [run_ops]. pose proof (por_step_sim pre c post s b o R) as H.
  destruct (por_step s o) as [r s']. destruct (bio_rej b o) as [rb b'].
  destruct H as [-> R']. f_equal. apply IH. exact R'.
Qed.

(* every byte string a PackedObjectReader returns is a slice of the object itself *)
Corollary por_reads_inside pre c post ops :
  Forall (fun r => match r with RBytes x => exists p k, x = zslice c p k | _ => True end)
         (run_ops por_step (por_init (pre ++ c ++ post) (zlen pre) (zlen c)) ops).
Proof.
  rewrite (por_run_sim pre c post ops _ _ (por_init_R pre c post)).
  assert (G : forall ops b, bcontent b = c -> Forall (fun r => match r with RBytes x => exists p k, x = zslice c p k | _ => True end) (run_ops bio_rej b ops)).
  { clear. induction ops as [|o ops IH]; intros b Hc; [constructor|].
    cbn [run_ops]. destruct (bio_rej b o) as [r b'] eqn:E. 
    assert (bcontent b' = c /\ match r with RBytes x => exists p k, x = zslice c p k | _ => True end).
    { unfold bio_rej in E. destruct (in_range b o); [|inversion E; subst; auto].
      destruct o as [n|t w|]; cbn in E.
      - inversion E; subst; cbn. split; auto. eexists; eexists; reflexivity.
      - destruct (w =? 0); [destruct (t <? 0)|destruct (w =? 1); [|destruct (w =? 2)]]; inversion E; subst; cbn; auto.
      - inversion E; subst; auto. }
    destruct H. constructor; auto. }
  apply G. reflexivity.
Qed.

(* the pre-repair seek (finding F2): an end-relative seek below the object moves the handle, trips the
   assertion afterwards, and the next read returns the five bytes of the neighbour before the object *)
Theorem por_seek_v0_refuted :
  run_ops por_step0 (por_init ([65;65;65;65;65] ++ [48;49;50;51;52;53;54;55;56;57] ++ [66;66])%N 5 10)
          [Seek (-15) 2; Read (-1)]
  = [RAssert; RBytes [65;65;65;65;65;48;49;50;51;52;53;54;55;56;57]%N].
Proof. vm_compute. reflexivity. Qed.

(* ---------- plain file (loose object / re-loosened cache) ---------- *)
Lemma fio_in_range b o : in_range b o = true -> fio_step b o = bio_step b o.
Proof.
  destruct o as [n|t w|]; cbn [in_range fio_step]; auto.
  unfold valid_whence, resolved. intros H.
  apply andb_prop in H as [H H2]. apply andb_prop in H as [H0 H1].
  cbn [bio_step]. rewrite H0. cbn [negb].
  destruct (w =? 0) eqn:E0; [|destruct (w =? 1) eqn:E1; [|destruct (w =? 2) eqn:E2]].
  - replace (t <? 0) with false by lia. reflexivity.
  - replace (bpos b + t <? 0) with false by lia. replace (Z.max 0 (bpos b + t)) with (bpos b + t) by lia. reflexivity.
  - replace (zlen (bcontent b) + t <? 0) with false by lia.
    replace (Z.max 0 (zlen (bcontent b) + t)) with (zlen (bcontent b) + t) by lia. reflexivity.
  - cbn in H0. discriminate.
Qed.

(* an out-of-range seek on a plain file either raises leaving the state unchanged, or returns p >= 0 and
   positions the stream at p, exactly as the in-memory file positioned at p would be *)
Lemma fio_out_of_range b t w :
  fio_step b (Seek t w) = (RErr, b) \/
  exists p, 0 <= p /\ fio_step b (Seek t w) = (RPos p, {| bcontent := bcontent b; bpos := p |}).
Proof.
  cbn [fio_step]. destruct (negb ((w =? 0) || (w =? 1) || (w =? 2))); auto.
  set (p := if w =? 0 then t else if w =? 1 then bpos b + t else zlen (bcontent b) + t).
  destruct (p <? 0) eqn:E; auto. right. exists p. split; [lia|reflexivity].
Qed.
