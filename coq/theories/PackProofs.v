(* PackProofs.v - pack_all_loose (one pack): for ALL object lists, worlds satisfying the invariant and EVERY crash
   point, the crash state satisfies the invariant and keeps every stored object; with do_fsync also under power loss. *)
From Coq Require Import List ZArith NArith Arith Bool Lia.
From DOS Require Import Base Store StoreProofs StoreLemmas Mono MonoStep Programs ProgramsProofs.
Import ListNotations.

Section PK.
Variable H : bytes -> key.
Variable inflate : bytes -> option bytes.
Hypothesis H_inj : forall a b, H a = H b -> a = b.
Notation Inv := (Inv H inflate).
Notation stored := (stored inflate).

(* validity of a row against given pack bytes *)
Definition row_ok_d (data : bytes) (r : row) : Prop :=
  exists c, roff r + rlen r <= length data /\ decode inflate (slice data (roff r) (rlen r)) (rcomp r) = Some c /\
            H c = rkey r /\ length c = rsize r /\ (rcomp r = false -> rlen r = rsize r).

Lemma row_ok_iff w r : row_ok H inflate w r <-> exists f, get_pack w (rpack r) = Some f /\ row_ok_d (fdata f) r.
Proof.
  unfold Store.row_ok, row_ok_d. split.
  - intros (f & c & Hp & A & B & C & D & E). exists f. split; auto. exists c. repeat split; auto.
  - intros (f & Hp & c & A & B & C & D & E). exists f, c. repeat split; auto.
Qed.

Lemma row_ok_d_prefix a b r : row_ok_d a r -> prefix_of a b -> row_ok_d b r.
Proof.
  intros (c & A & B & C & D & E) [x ->]. exists c. rewrite app_length. split; [lia|].
  rewrite slice_app_l by lia. repeat split; auto.
Qed.

(* ---- general assembly lemma: an invariant for a world built from pieces ---- *)
Lemma Inv_assemble (V w' : world) (id : Z) (data synced : bytes) :
  NoDup (map rkey (db w')) -> pairwise disjoint (db w') ->
  Forall (fun kf => H (fdata (snd kf)) = fst kf) (loose w') ->
  get_pack w' id = Some (mkFile data synced) ->
  (forall r, In r (db w') -> rpack r <> id -> get_pack w' (rpack r) = get_pack V (rpack r)) ->
  (forall r, In r (db w') -> rpack r <> id -> row_ok H inflate V r) ->
  (forall r, In r (db w') -> rpack r = id -> row_ok_d data r) ->
  Inv w'.
Proof.
  intros Hnd Hpw Hl Hp Ho Hr1 Hr2. unfold Store.Inv. split; [exact Hnd|]. split; [|split; [exact Hpw|exact Hl]].
  apply Forall_forall. intros r Hin. apply row_ok_iff.
  destruct (Z.eq_dec (rpack r) id) as [E|E].
  - exists (mkFile data synced). rewrite E. split; [exact Hp|]. apply Hr2; auto.
  - destruct (proj1 (row_ok_iff V r) (Hr1 r Hin E)) as (f & Hpf & Hd). exists f. split; [|exact Hd].
    rewrite (Ho r Hin E). exact Hpf.
Qed.

(* the common case: every other pack is unchanged *)
Lemma Inv_assemble' (V w' : world) (id : Z) (data synced : bytes) :
  NoDup (map rkey (db w')) -> pairwise disjoint (db w') ->
  Forall (fun kf => H (fdata (snd kf)) = fst kf) (loose w') ->
  get_pack w' id = Some (mkFile data synced) ->
  (forall id', id' <> id -> get_pack w' id' = get_pack V id') ->
  (forall r, In r (db w') -> rpack r <> id -> row_ok H inflate V r) ->
  (forall r, In r (db w') -> rpack r = id -> row_ok_d data r) ->
  Inv w'.
Proof.
  intros A B C D E F G. apply (Inv_assemble V w' id data synced); auto.
Qed.

Lemma get_pack_pl w id : get_pack (power_loss w) id = option_map pl_file (get_pack w id).
Proof.
  unfold get_pack. cbn [packs power_loss]. induction (packs w) as [|[a v] t IH]; cbn; [reflexivity|].
  destruct (Z.eqb id a); [reflexivity|exact IH].
Qed.

Lemma loose_pl_valid w : Forall (fun kf => H (fdata (snd kf)) = fst kf) (loose (power_loss w)) <->
  Forall (fun kf => H (fsynced (snd kf)) = fst kf) (loose w).
Proof.
  cbn [loose power_loss]. rewrite !Forall_forall. split.
  - intros Hf kf Hin. specialize (Hf (fst kf, pl_file (snd kf))). cbn in Hf. apply Hf.
    apply in_map_iff. exists kf. auto.
  - intros Hf kf Hin. apply in_map_iff in Hin as (kf0 & <- & Hin0). cbn. apply Hf; auto.
Qed.

(* under both invariants every loose file is fully synced *)
Lemma loose_synced w : Inv w -> Inv (power_loss w) -> forall k f, get_loose w k = Some f -> fsynced f = fdata f.
Proof.
  intros (_ & _ & _ & Hl) (_ & _ & _ & Hpl) k f Hg. apply loose_pl_valid in Hpl.
  rewrite Forall_forall in Hl, Hpl. pose proof (get_loose_in _ _ _ Hg) as Hin.
  specialize (Hl _ Hin). specialize (Hpl _ Hin). cbn in *. apply H_inj. congruence.
Qed.

(* ---- rows produced for a batch appended after `pre` ---- *)
Lemma slice_mid {A} (p y z : list A) : slice (p ++ y ++ z) (length p) (length y) = y.
Proof.
  unfold slice. rewrite skipn_app, skipn_all, Nat.sub_diag. cbn [skipn app].
  rewrite firstn_app, firstn_all, Nat.sub_diag. cbn. apply app_nil_r.
Qed.

Definition obj_ok (w : world) (o : pobj) : Prop :=
  exists f, get_loose w (okey o) = Some f /\ decode inflate (oblob o) (ocomp o) = Some (fdata f) /\ osize o = length (fdata f).

Lemma obj_plain_len w o : obj_ok w o -> ocomp o = false -> length (oblob o) = osize o.
Proof. intros (f & _ & Hd & Hs) Hc. rewrite Hc in Hd. cbn in Hd. inversion Hd. congruence. Qed.

Lemma rows_from_spec w id : forall objs pre post,
  Inv w -> Forall (obj_ok w) objs ->
  Forall (fun r => rpack r = id /\ length pre <= roff r /\ row_ok_d (pre ++ concat (map oblob objs) ++ post) r)
         (rows_from id (length pre) objs).
Proof.
  induction objs as [|o t IH]; intros pre post HI Hok; cbn [rows_from]; [constructor|].
  inversion Hok as [|? ? Ho Ht]; subst. constructor.
  - cbn [rpack roff rlen rcomp rkey rsize]. split; [reflexivity|]. split; [lia|].
    destruct Ho as (f & Hg & Hd & Hs). unfold row_ok_d. cbn [roff rlen rcomp rkey rsize]. exists (fdata f).
    cbn [map concat]. rewrite <- app_assoc. rewrite !app_length. split; [lia|].
    rewrite slice_mid. split; [exact Hd|]. split.
    + destruct HI as (_ & _ & _ & Hl). rewrite Forall_forall in Hl. apply (Hl _ (get_loose_in _ _ _ Hg)).
    + split; [symmetry; exact Hs|]. intros Hc. apply (obj_plain_len w o); [exists f; repeat split; auto|exact Hc].
  - specialize (IH (pre ++ oblob o) post HI Ht). rewrite app_length in IH.
    eapply Forall_impl; [|exact IH]. intros r (A & B & C). split; [exact A|]. split; [lia|].
    cbn [map concat]. rewrite <- !app_assoc in C. rewrite <- app_assoc. exact C.
Qed.

Lemma rows_from_keys id : forall objs off, map rkey (rows_from id off objs) = map okey objs.
Proof. induction objs as [|o t IH]; intros off; cbn; [reflexivity|]. rewrite IH. reflexivity. Qed.

(* consecutive rows do not overlap *)
Lemma rows_from_pairwise id : forall objs off, pairwise disjoint (rows_from id off objs).
Proof.
  induction objs as [|o t IH]; intros off; cbn [rows_from pairwise]; [exact I|]. split; [|apply IH].
  assert (G : forall objs off', off + length (oblob o) <= off' ->
              Forall (disjoint (mkRow (okey o) id off (length (oblob o)) (ocomp o) (osize o))) (rows_from id off' objs)).
  { clear. induction objs as [|o' t IH]; intros off' Hle; cbn [rows_from]; constructor.
    - right. left. cbn. lia.
    - apply IH. lia. }
  apply G. lia.
Qed.

(* fresh, distinct keys are all inserted, in order *)
Lemma insert_rows_fresh ig : forall rs d,
  NoDup (map rkey rs) -> (forall r, In r rs -> ~ In (rkey r) (map rkey d)) -> insert_rows ig d rs = d ++ rs.
Proof.
  induction rs as [|r t IH]; intros d Hnd Hfr; cbn [insert_rows]; [rewrite app_nil_r; reflexivity|].
  inversion Hnd as [|? ? Hni Hnd']; subst.
  destruct (has_key d (rkey r)) eqn:E.
  - exfalso. apply (Hfr r (or_introl eq_refl)). apply has_key_in. exact E.
  - rewrite IH; auto.
    + rewrite <- app_assoc. reflexivity.
    + intros r' Hin Hk. rewrite map_app in Hk. apply in_app_or in Hk as [Hk|[Hk|[]]].
      * apply (Hfr r' (or_intror Hin)); auto.
      * apply Hni. rewrite Hk. apply in_map; auto.
Qed.


(* ---- what a key reads back as is determined by the index and the loose map, given the invariant ---- *)
Definition Rel (X Y : world) : Prop :=
  (forall k, In k (map rkey (db X)) -> In k (map rkey (db Y))) /\
  (forall k f, get_loose X k = Some f -> (exists f', get_loose Y k = Some f' /\ fdata f' = fdata f) \/ In k (map rkey (db Y))).

Lemma Rel_refl X : Rel X X.
Proof. clear H_inj. split; auto. intros k f Hg. left. exists f. auto. Qed.

Lemma stored_preserved X Y k c : Inv X -> Inv Y -> Rel X Y -> stored X k = Some c -> stored Y k = Some c.
Proof.
  intros IX IY (Rr & Rl) Hs.
  assert (Hk : H c = k) by exact (stored_sound H inflate X k c IX Hs).
  assert (HinY : forall r, In r (db Y) -> rkey r = k -> stored Y k = Some c).
  { intros r Hin Hrk. destruct (manual_recovery H inflate Y r IY Hin) as (c' & Hst & Hh & _).
    rewrite Hrk in *. rewrite Hst. f_equal. apply H_inj. congruence. }
  unfold Store.stored in Hs. destruct (find_row (db X) k) as [r|] eqn:F.
  - apply find_row_some in F as [Hin Hrk].
    assert (HkY : In k (map rkey (db Y))) by (apply Rr; rewrite <- Hrk; apply in_map; exact Hin).
    apply in_map_iff in HkY as (r' & Hrk' & Hin'). apply (HinY r'); auto.
  - destruct (get_loose X k) as [f|] eqn:Hg; [|discriminate]. inversion Hs; subst c.
    destruct (Rl _ _ Hg) as [(f' & Hg' & Ef)|Hin].
    + destruct (find_row (db Y) k) as [r|] eqn:FY.
      * pose proof FY as FY'. apply find_row_some in FY' as [Hin Hrk]. exact (HinY r Hin Hrk).
      * unfold Store.stored. rewrite FY, Hg'. congruence.
    + apply in_map_iff in Hin as (r & Hrk & Hin). apply (HinY r); auto.
Qed.

(* ---- worlds that agree with w except for the bytes of pack id ---- *)
Definition Dof (w : world) (id : Z) : bytes := match get_pack w id with Some f => fdata f | None => [] end.
Definition Sof (w : world) (id : Z) : bytes := match get_pack w id with Some f => fsynced f | None => [] end.

Definition ext (w w' : world) (id : Z) (data synced : bytes) : Prop :=
  loose w' = loose w /\ db w' = db w /\ get_pack w' id = Some (mkFile data synced) /\
  (forall id', id' <> id -> get_pack w' id' = get_pack w id').

Lemma rows_of_missing_pack w id r : Inv w -> get_pack w id = None -> In r (db w) -> rpack r <> id.
Proof.
  intros (_ & Hok & _) Hn Hin E. rewrite Forall_forall in Hok.
  destruct (Hok r Hin) as (f & c & Hp & _). rewrite E, Hn in Hp. discriminate.
Qed.

Lemma ext_Inv w w' id data synced :
  Inv w -> ext w w' id data synced -> prefix_of (Dof w id) data -> Inv w'.
Proof.
  intros HI (El & Ed & Ep & Eo) Hpre. pose proof HI as (Hnd & Hok & Hpw & Hl).
  apply (Inv_assemble' w w' id data synced); try (rewrite ?Ed, ?El; assumption).
  - intros r Hin _. rewrite Ed in Hin. rewrite Forall_forall in Hok. auto.
  - intros r Hin E. rewrite Ed in Hin. rewrite Forall_forall in Hok.
    destruct (proj1 (row_ok_iff w r) (Hok r Hin)) as (f & Hp & Hd).
    eapply row_ok_d_prefix; [exact Hd|]. unfold Dof in Hpre. rewrite E in Hp. rewrite Hp in Hpre. exact Hpre.
Qed.

Lemma ext_Rel w w' id data synced : ext w w' id data synced -> Rel w w'.
Proof.
  clear H_inj. intros (El & Ed & _ & _). split.
  - rewrite Ed. auto.
  - intros k f Hg. left. exists f. unfold get_loose in *. rewrite El. auto.
Qed.

Lemma ext_pl w w' id data synced : ext w w' id data synced -> ext (power_loss w) (power_loss w') id synced synced.
Proof.
  intros (El & Ed & Ep & Eo). unfold ext. cbn [loose db power_loss]. rewrite El, Ed.
  split; [reflexivity|]. split; [reflexivity|]. split.
  - rewrite get_pack_pl, Ep. reflexivity.
  - intros id' Hne. rewrite !get_pack_pl. rewrite Eo; auto.
Qed.

Lemma Dof_pl w id : Dof (power_loss w) id = Sof w id.
Proof. unfold Dof, Sof. rewrite get_pack_pl. destruct (get_pack w id); reflexivity. Qed.

(* the power-loss image once the appended bytes are synced: rows of pack id are valid against D ++ B because they are valid
   against D (live invariant); everything else comes from the power-loss invariant of the initial world *)
Lemma ext_Inv_pl_synced w w' id data :
  Inv w -> Inv (power_loss w) -> ext w w' id data data -> prefix_of (Dof w id) data -> Inv (power_loss w').
Proof.
  intros HI HP E Hpre. pose proof (ext_pl _ _ _ _ _ E) as (El & Ed & Ep & Eo).
  pose proof HP as (Hnd & Hok & Hpw & Hl). pose proof HI as (_ & Hok0 & _).
  apply (Inv_assemble' (power_loss w) (power_loss w') id data data); try (rewrite ?Ed, ?El; assumption).
  - intros r Hin _. rewrite Ed in Hin. rewrite Forall_forall in Hok. auto.
  - intros r Hin Er. rewrite Ed in Hin. cbn [db power_loss] in Hin. rewrite Forall_forall in Hok0.
    destruct (proj1 (row_ok_iff w r) (Hok0 r Hin)) as (f & Hp & Hd).
    eapply row_ok_d_prefix; [exact Hd|]. unfold Dof in Hpre. rewrite Er in Hp. rewrite Hp in Hpre. exact Hpre.
Qed.

End PK.

(* ================= execution of p_pack_one ================= *)
Section Exec.
Variable H : bytes -> key.
Variable inflate : bytes -> option bytes.
Hypothesis H_inj : forall a b, H a = H b -> a = b.
Notation Inv := (Inv H inflate).
Notation stored := (stored inflate).

Lemma put_pack_ext w0 w1 id X Y X' Y' :
  ext w0 w1 id X Y -> ext w0 (put_file w1 (HPack id) (mkFile X' Y')) id X' Y'.
Proof.
  intros (El & Ed & Ep & Eo). unfold ext, put_file. cbn [loose db set_packs packs].
  split; [exact El|]. split; [exact Ed|]. split.
  - unfold get_pack. cbn [packs set_packs]. apply (g_aset_eq Z.eqb Z.eqb_spec).
  - intros id' Hne. unfold get_pack in *. cbn [packs set_packs]. rewrite (g_aset_neq Z.eqb Z.eqb_spec); auto.
Qed.

Lemma exec_open w l id :
  exists w1 l1, apply_ev (w, l) (EOpenPack id) = (w1, l1) /\ ext w w1 id (Dof w id) (Sof w id) /\
     get_buf l1 (HPack id) = Some [] /\ pending l1 = pending l.
Proof.
  cbn [apply_ev]. unfold Dof, Sof.
  destruct (get_pack w id) as [f|] eqn:Hp.
  - eexists. eexists. split; [reflexivity|]. split.
    + unfold ext. split; [reflexivity|]. split; [reflexivity|]. split; [destruct f; exact Hp|auto].
    + split; [|reflexivity]. unfold get_buf. cbn [bufs set_bufs]. apply (g_aset_eq hid_eqb hid_eqb_spec).
  - eexists. eexists. split; [reflexivity|]. split.
    + unfold ext, put_file. cbn [loose db set_packs packs]. split; [reflexivity|]. split; [reflexivity|]. split.
      * unfold get_pack. cbn [packs set_packs]. apply (g_aset_eq Z.eqb Z.eqb_spec).
      * intros id' Hne. unfold get_pack. cbn [packs set_packs]. rewrite (g_aset_neq Z.eqb Z.eqb_spec); auto.
    + split; [|reflexivity]. unfold get_buf. cbn [bufs set_bufs]. apply (g_aset_eq hid_eqb hid_eqb_spec).
Qed.

Lemma exec_writes w1 l1 id objs b : get_buf l1 (HPack id) = Some b ->
  exists l2, run_events (w1, l1) (map (fun o => EWrite (HPack id) (oblob o)) objs) = (w1, l2) /\
     get_buf l2 (HPack id) = Some (b ++ concat (map oblob objs)) /\ pending l2 = pending l1.
Proof.
  intros Hb. replace (map (fun o => EWrite (HPack id) (oblob o)) objs) with (map (EWrite (HPack id)) (map oblob objs))
    by (rewrite map_map; reflexivity).
  apply run_writes. exact Hb.
Qed.

Lemma exec_flush w0 w1 l id X Y b : ext w0 w1 id X Y -> get_buf l (HPack id) = Some b ->
  exists w2 l2, apply_ev (w1, l) (EFlush (HPack id)) = (w2, l2) /\ ext w0 w2 id (X ++ b) Y /\
     get_buf l2 (HPack id) = Some [] /\ pending l2 = pending l.
Proof.
  intros E Hb. pose proof E as (_ & _ & Ep & _). cbn [apply_ev]. unfold flush_h. rewrite Hb. cbn [get_file]. rewrite Ep.
  eexists. eexists. split; [reflexivity|]. cbn [fdata fsynced]. split; [eapply put_pack_ext; eauto|].
  split; [|reflexivity]. unfold get_buf. cbn [bufs set_bufs]. apply (g_aset_eq hid_eqb hid_eqb_spec).
Qed.

Lemma exec_fsync w0 w1 l id X Y : ext w0 w1 id X Y ->
  exists w2, apply_ev (w1, l) (EFsync (HPack id)) = (w2, l) /\ ext w0 w2 id X X.
Proof.
  intros E. pose proof E as (_ & _ & Ep & _). cbn [apply_ev get_file]. rewrite Ep.
  eexists. split; [reflexivity|]. cbn [fdata]. eapply put_pack_ext; eauto.
Qed.

Lemma exec_close w0 w1 l id X Y b : ext w0 w1 id X Y -> get_buf l (HPack id) = Some b ->
  exists w2 l2, apply_ev (w1, l) (EClose (HPack id)) = (w2, l2) /\ ext w0 w2 id (X ++ b) Y /\ pending l2 = pending l.
Proof.
  intros E Hb. pose proof E as (_ & _ & Ep & _). cbn [apply_ev]. unfold flush_h. rewrite Hb. cbn [get_file]. rewrite Ep.
  eexists. eexists. split; [reflexivity|]. cbn [fdata fsynced]. split; [eapply put_pack_ext; eauto|reflexivity].
Qed.

(* ---- every prefix ---- *)
Definition always (P : world -> Prop) (s : world * local) (tr : list event) : Prop :=
  forall m, P (fst (run_events s (firstn m tr))).

Lemma always_nil (P : world -> Prop) s : P (fst s) -> always P s [].
Proof. intros Hp m. rewrite firstn_nil. exact Hp. Qed.

Lemma always_cons (P : world -> Prop) s e t : P (fst s) -> always P (apply_ev s e) t -> always P s (e :: t).
Proof. intros Hp Ht m. destruct m as [|m]; [exact Hp|]. cbn [firstn]. exact (Ht m). Qed.

Lemma always_app (P : world -> Prop) s a b : always P s a -> always P (run_events s a) b -> always P s (a ++ b).
Proof.
  intros Ha Hb m. rewrite firstn_app. unfold run_events. rewrite fold_left_app.
  destruct (Nat.le_gt_cases (length a) m) as [Hle|Hgt].
  - rewrite (@firstn_all2 _ m a) by lia. apply Hb.
  - replace (m - length a) with 0 by lia. cbn [firstn fold_left]. apply Ha.
Qed.

Lemma always_local (P : world -> Prop) s tr :
  forallb local_only tr = true -> (forall w', core w' = core (fst s) -> P w') -> always P s tr.
Proof.
  intros Hl Hp m. apply Hp. apply local_only_run. apply forallb_firstn. exact Hl.
Qed.

(* ---- the property carried along the trace ---- *)
Definition Good (w : world) (fs : bool) (w' : world) : Prop :=
  Inv w' /\ Rel w w' /\
  (fs = true -> Inv (power_loss w) -> Inv (power_loss w') /\ Rel (power_loss w) (power_loss w')).

Lemma Rel_core X Y Y' : core Y' = core Y -> Rel X Y -> Rel X Y'.
Proof.
  unfold core. intros E. inversion E as [[E1 E2 E3]]. unfold Rel, get_loose. rewrite E1, E3. auto.
Qed.

Lemma Good_core w fs Y Y' : core Y' = core Y -> Good w fs Y -> Good w fs Y'.
Proof.
  intros E (A & B & C). split; [eapply Inv_core; [symmetry; exact E|exact A]|].
  split; [eapply Rel_core; eauto|].
  intros F P. destruct (C F P) as (C1 & C2). split.
  - eapply Inv_core; [|exact C1]. apply pl_core. symmetry. exact E.
  - eapply Rel_core; [|exact C2]. apply pl_core. exact E.
Qed.

Lemma Good_refl w fs : Inv w -> Good w fs w.
Proof. intros HI. split; [exact HI|]. split; [apply Rel_refl|]. intros _ P. split; [exact P|apply Rel_refl]. Qed.

Lemma ext_Good_before w w' id data fs :
  Inv w -> ext w w' id data (Sof w id) -> prefix_of (Dof w id) data -> Good w fs w'.
Proof.
  intros HI E Hpre. split; [eapply (ext_Inv H inflate); eauto|]. split; [eapply ext_Rel; eauto|].
  intros _ P. pose proof (ext_pl _ _ _ _ _ E) as Epl. split.
  - eapply (ext_Inv H inflate); [exact P|exact Epl|]. rewrite Dof_pl. apply prefix_refl.
  - eapply ext_Rel; eauto.
Qed.

Lemma ext_Good_synced w w' id data fs :
  Inv w -> ext w w' id data data -> prefix_of (Dof w id) data -> Good w fs w'.
Proof.
  intros HI E Hpre. split; [eapply (ext_Inv H inflate); eauto|]. split; [eapply ext_Rel; eauto|].
  intros _ P. split.
  - exact (ext_Inv_pl_synced H inflate w w' id data HI P E Hpre).
  - eapply ext_Rel. eapply ext_pl. exact E.
Qed.

End Exec.

Section Main.
Variable H : bytes -> key.
Variable inflate : bytes -> option bytes.
Hypothesis H_inj : forall a b, H a = H b -> a = b.
Notation Inv := (Inv H inflate).
Notation stored := (stored inflate).
Notation Good := (Good H inflate).

(* ---- unlinking a loose file whose key is indexed ---- *)
Definition unlink_world (w : world) (k : key) : world := set_loose w (adel N.eqb (loose w) k).

Lemma adel_incl {V} (l : list (key * V)) k x : In x (adel N.eqb l k) -> In x l.
Proof.
  induction l as [|[a v] t IH]; cbn; [auto|]. destruct (N.eqb k a); [right; auto|].
  intros [E|Hin]; [left; auto|right; auto].
Qed.

Lemma Inv_unlink w k : Inv w -> Inv (unlink_world w k).
Proof.
  intros (Hnd & Hok & Hpw & Hl). unfold Store.Inv, unlink_world. cbn [db set_loose loose].
  split; [exact Hnd|]. split; [|split; [exact Hpw|]].
  - rewrite Forall_forall in *. intros r Hr. destruct (Hok r Hr) as (f & c & Hp & Hrest). exists f, c. split; auto.
  - rewrite Forall_forall in *. intros x Hx. apply Hl. eapply adel_incl; eauto.
Qed.

Lemma Rel_unlink X Y k : Rel X Y -> In k (map rkey (db Y)) -> Rel X (unlink_world Y k).
Proof.
  intros (Rr & Rl) Hk. split; [exact Rr|]. intros k' f Hg.
  destruct (Rl _ _ Hg) as [(f' & Hg' & Ef)|Hin]; [|right; exact Hin].
  destruct (N.eq_dec k' k) as [->|Hne]; [right; exact Hk|].
  left. exists f'. split; [|exact Ef]. unfold get_loose, unlink_world in *. cbn [loose set_loose].
  rewrite (g_adel_neq N.eqb N.eqb_spec); auto.
Qed.

Lemma adel_map (l : list (key * file)) k :
  map (fun kf => (fst kf, pl_file (snd kf))) (adel N.eqb l k) = adel N.eqb (map (fun kf => (fst kf, pl_file (snd kf))) l) k.
Proof.
  induction l as [|[a v] t IH]; cbn; [reflexivity|]. destruct (N.eqb k a); [exact IH|]. cbn. rewrite IH. reflexivity.
Qed.

Lemma pl_unlink w k : power_loss (unlink_world w k) = unlink_world (power_loss w) k.
Proof. unfold power_loss, unlink_world. cbn [loose packs sandbox db set_loose]. rewrite adel_map. reflexivity. Qed.

Lemma Good_unlink w fs w' k : Good w fs w' -> In k (map rkey (db w')) -> Good w fs (unlink_world w' k).
Proof.
  intros (A & B & C) Hk. split; [apply Inv_unlink; exact A|]. split; [apply Rel_unlink; auto|].
  intros F P. destruct (C F P) as (C1 & C2). rewrite pl_unlink. split; [apply Inv_unlink; exact C1|].
  apply Rel_unlink; auto.
Qed.

Lemma always_unlinks w fs : forall ks s, Good w fs (fst s) -> (forall k, In k ks -> In k (map rkey (db (fst s)))) ->
  always (Good w fs) s (map EUnlinkLoose ks).
Proof.
  induction ks as [|k t IH]; intros s Hg Hks; cbn [map].
  - apply always_nil. exact Hg.
  - apply always_cons; [exact Hg|]. destruct s as [w' l']. cbn [apply_ev]. apply IH.
    + cbn [fst]. apply (Good_unlink w fs w' k); auto. apply Hks. left; reflexivity.
    + intros k' Hk'. cbn [fst db set_loose]. apply Hks. right; exact Hk'.
Qed.

(* ---- the commit of the batch ---- *)
Lemma commit_Good w w4 l4 id objs fs X :
  Inv w ->
  Forall (obj_ok inflate w) objs -> NoDup (map okey objs) -> (forall o, In o objs -> ~ In (okey o) (map rkey (db w))) ->
  let B := concat (map oblob objs) in
  let R := rows_from id (length (Dof w id)) objs in
  ext w w4 id (Dof w id ++ B) X -> (fs = true -> X = Dof w id ++ B) ->
  pending l4 = [SInsert false R] ->
  exists l5, apply_ev (w4, l4) ECommit = (set_db w4 (db w ++ R), l5) /\ Good w fs (set_db w4 (db w ++ R)).
Proof.
  intros HI Hobjs Hnd Hfresh B R E HX Hpend.
  pose proof E as (El & Ed & Ep & Eo). pose proof HI as (Hnd0 & Hok0 & Hpw0 & Hl0).
  assert (Hins : insert_rows false (db w4) R = db w ++ R).
  { rewrite Ed. apply insert_rows_fresh.
    - unfold R. rewrite rows_from_keys. exact Hnd.
    - intros r Hr Hk. assert (Hkk : In (rkey r) (map rkey R)) by (apply in_map; auto).
      unfold R in Hkk. rewrite rows_from_keys in Hkk. apply in_map_iff in Hkk as (o & Ho & Hino).
      apply (Hfresh o Hino). rewrite Ho. exact Hk. }
  exists (set_pending l4 []). split.
  { cbn [apply_ev]. rewrite Hpend. cbn [fold_left apply_sql]. rewrite Hins. reflexivity. }
  set (w5 := set_db w4 (db w ++ R)).
  pose proof (rows_from_spec H inflate w id objs (Dof w id) [] HI Hobjs) as HR. rewrite app_nil_r in HR. fold B R in HR.
  rewrite Forall_forall in HR.
  assert (HndR : NoDup (map rkey (db w ++ R))).
  { rewrite map_app. apply NoDup_app_intro; auto.
    - unfold R. rewrite rows_from_keys. exact Hnd.
    - intros x Hx Hy. unfold R in Hy. rewrite rows_from_keys in Hy. apply in_map_iff in Hy as (o & Ho & Hino).
      apply (Hfresh o Hino). rewrite Ho. exact Hx. }
  assert (HpwR : pairwise disjoint (db w ++ R)).
  { clear -Hpw0 Hok0 HR HI. 
    assert (G : forall (l1 : list row), pairwise disjoint l1 -> (forall a, In a l1 -> Forall (disjoint a) R) -> pairwise disjoint R -> pairwise disjoint (l1 ++ R)).
    { induction l1 as [|a t IH]; intros P1 Hd PR; cbn; [exact PR|]. destruct P1 as [Pa Pt]. split.
      - apply Forall_app. split; [exact Pa|apply Hd; left; reflexivity].
      - apply IH; auto. intros a' Ha'. apply Hd. right; exact Ha'. }
    apply G; [exact Hpw0| |apply rows_from_pairwise].
    intros a Ha. apply Forall_forall. intros r Hr. destruct (HR r Hr) as (Hrp & Hoff & _).
    destruct (Z.eq_dec (rpack a) id) as [Ea|Ea]; [|left; congruence].
    right. left. rewrite Forall_forall in Hok0.
    destruct (proj1 (row_ok_iff H inflate w a) (Hok0 a Ha)) as (f & Hp & (c & Hle & _)).
    unfold Dof in Hoff. rewrite Ea in Hp. rewrite Hp in Hoff. lia. }
  assert (Hpre : prefix_of (Dof w id) (Dof w id ++ B)) by (exists B; reflexivity).
  assert (Hrows_id : forall r, In r (db w ++ R) -> rpack r = id -> row_ok_d H inflate (Dof w id ++ B) r).
  { intros r Hin Er. apply in_app_or in Hin as [Hin|Hin].
    - rewrite Forall_forall in Hok0. destruct (proj1 (row_ok_iff H inflate w r) (Hok0 r Hin)) as (f & Hp & Hd).
      eapply row_ok_d_prefix; [exact Hd|]. unfold Dof. rewrite Er in Hp. rewrite Hp. exists B. reflexivity.
    - destruct (HR r Hin) as (_ & _ & Hd). exact Hd. }
  assert (Hrows_other : forall r, In r (db w ++ R) -> rpack r <> id -> In r (db w)).
  { intros r Hin Ne. apply in_app_or in Hin as [Hin|Hin]; [exact Hin|]. destruct (HR r Hin) as (Hrp & _). congruence. }
  split; [|split].
  - (* live invariant *)
    apply (Inv_assemble' H inflate w w5 id (Dof w id ++ B) X); unfold w5; cbn [db set_db loose]; auto.
    + rewrite El. exact Hl0.
    + intros r Hin Ne. rewrite Forall_forall in Hok0. apply Hok0. apply Hrows_other; auto.
  - split.
    + intros k Hk. unfold w5; cbn [db set_db]. rewrite map_app. apply in_or_app. left; exact Hk.
    + intros k f Hg. left. exists f. unfold get_loose, w5 in *. cbn [loose set_db]. rewrite El. auto.
  - (* power loss: the appended bytes were synced before the commit *)
    intros F P. specialize (HX F). subst X.
    pose proof (ext_pl _ _ _ _ _ E) as (Elp & Edp & Epp & Eop).
    pose proof P as (Pnd & Pok & Ppw & Pl).
    assert (Epl : power_loss w5 = set_db (power_loss w4) (db w ++ R)) by reflexivity.
    split.
    + rewrite Epl.
      apply (Inv_assemble' H inflate (power_loss w) (set_db (power_loss w4) (db w ++ R)) id (Dof w id ++ B) (Dof w id ++ B));
        cbn [db set_db loose]; auto.
      * rewrite Elp. exact Pl.
      * intros r Hin Ne. rewrite Forall_forall in Pok. apply Pok. cbn [db power_loss]. apply Hrows_other; auto.
    + split.
      * intros k Hk. cbn [db power_loss] in *. unfold w5; cbn [db set_db]. rewrite map_app. apply in_or_app. left; exact Hk.
      * intros k f Hg. left. exists f. unfold get_loose in *. rewrite Epl. cbn [loose set_db]. rewrite Elp. auto.
Qed.

End Main.

Section Thm.
Variable H : bytes -> key.
Variable inflate : bytes -> option bytes.
Hypothesis H_inj : forall a b, H a = H b -> a = b.
Notation Inv := (Inv H inflate).
Notation stored := (stored inflate).
Notation Good := (Good H inflate).

Lemma writes_local id objs : forallb local_only (map (fun o => EWrite (HPack id) (oblob o)) objs) = true.
Proof. apply forallb_forall. intros e He. apply in_map_iff in He as (o & <- & _). reflexivity. Qed.

(* pack_all_loose, one pack: at EVERY prefix of the program the world is Good *)
Theorem pack_one_always w l id objs fs clean :
  Inv w -> pending l = [] ->
  Forall (obj_ok inflate w) objs -> NoDup (map okey objs) -> (forall o, In o objs -> ~ In (okey o) (map rkey (db w))) ->
  always (Good w fs) (w, l) (p_pack_one w id objs fs clean).
Proof.
  intros HI Hpend Hobjs Hnd Hfresh.
  set (B := concat (map oblob objs)). set (D := Dof w id).
  set (R := rows_from id (length D) objs).
  assert (HR : rows_from id (pack_len w id) objs = R).
  { unfold R, D, Dof, pack_len. destruct (get_pack w id); reflexivity. }
  unfold p_pack_one. rewrite HR.
  (* open *)
  apply always_cons; [apply Good_refl; exact HI|].
  destruct (exec_open w l id) as (w1 & l1 & E1 & X1 & Hb1 & Hp1). rewrite E1. fold D in X1.
  assert (G1 : Good w fs w1) by (eapply (ext_Good_before H inflate); [exact HI|exact X1|apply prefix_refl]).
  (* writes *)
  apply always_app.
  { apply always_local; [apply writes_local|]. intros w' Hc. eapply Good_core; [exact Hc|exact G1]. }
  destruct (exec_writes w1 l1 id objs [] Hb1) as (l2 & E2 & Hb2 & Hp2). rewrite E2. cbn [app] in Hb2. fold B in Hb2.
  (* the INSERT statement *)
  apply always_cons; [exact G1|]. cbn [apply_ev].
  set (l3 := set_pending l2 (pending l2 ++ [SInsert false R])).
  assert (Hb3 : get_buf l3 (HPack id) = Some B) by exact Hb2.
  assert (Hp3 : pending l3 = [SInsert false R]) by (unfold l3; cbn [pending set_pending]; rewrite Hp2, Hp1, Hpend; reflexivity).
  assert (Hpre : prefix_of D (D ++ B)) by (exists B; reflexivity).
  destruct fs.
  - (* flush, fsync, close, commit *)
    cbn [app].
    apply always_cons; [exact G1|].
    destruct (exec_flush w w1 l3 id D (Sof w id) B X1 Hb3) as (w2 & l4 & E4 & X4 & Hb4 & Hp4). rewrite E4.
    assert (G4 : Good w true w2) by (eapply (ext_Good_before H inflate); [exact HI|exact X4|exact Hpre]).
    apply always_cons; [exact G4|].
    destruct (exec_fsync w w2 l4 id (D ++ B) (Sof w id) X4) as (w3 & E5 & X5). rewrite E5.
    assert (G5 : Good w true w3) by (eapply (ext_Good_synced H inflate); [exact HI|exact X5|exact Hpre]).
    apply always_cons; [exact G5|].
    destruct (exec_close w w3 l4 id (D ++ B) (D ++ B) [] X5 Hb4) as (w4 & l5 & E6 & X6 & Hp6). rewrite E6.
    rewrite app_nil_r in X6.
    assert (G6 : Good w true w4) by (eapply (ext_Good_synced H inflate); [exact HI|exact X6|exact Hpre]).
    apply always_cons; [exact G6|].
    destruct (commit_Good H inflate H_inj w w4 l5 id objs true (D ++ B) HI Hobjs Hnd Hfresh X6 (fun _ => eq_refl)) as (l6 & E7 & G7).
    { rewrite Hp6, Hp4. exact Hp3. }
    fold D R in E7, G7. rewrite E7.
    destruct clean.
    + replace (map (fun o => EUnlinkLoose (okey o)) objs) with (map EUnlinkLoose (map okey objs)) by (rewrite map_map; reflexivity).
      apply (always_unlinks H inflate); [exact G7|].
      intros k Hk. cbn [fst db set_db]. rewrite map_app. apply in_or_app. right.
      unfold R. rewrite rows_from_keys. exact Hk.
    + apply always_nil. exact G7.
  - (* no fsync: close, commit *)
    cbn [app].
    apply always_cons; [exact G1|].
    destruct (exec_close w w1 l3 id D (Sof w id) B X1 Hb3) as (w4 & l5 & E6 & X6 & Hp6). rewrite E6.
    assert (G6 : Good w false w4) by (eapply (ext_Good_before H inflate); [exact HI|exact X6|exact Hpre]).
    apply always_cons; [exact G6|].
    destruct (commit_Good H inflate H_inj w w4 l5 id objs false (Sof w id) HI Hobjs Hnd Hfresh X6) as (l6 & E7 & G7).
    { intros F; discriminate. }
    { rewrite Hp6. exact Hp3. }
    fold D R in E7, G7. rewrite E7.
    destruct clean.
    + replace (map (fun o => EUnlinkLoose (okey o)) objs) with (map EUnlinkLoose (map okey objs)) by (rewrite map_map; reflexivity).
      apply (always_unlinks H inflate); [exact G7|].
      intros k Hk. cbn [fst db set_db]. rewrite map_app. apply in_or_app. right.
      unfold R. rewrite rows_from_keys. exact Hk.
    + apply always_nil. exact G7.
Qed.

(* C05 / C06 / C02 for pack_all_loose (one pack), ALL object lists, worlds, oracles (order, blobs) and EVERY crash point m:
   the crash state satisfies the invariant and every stored object is still stored with its bytes; with do_fsync = true
   the same holds for the power-loss image. *)
Theorem pack_one_crash_safe w l id objs fs clean m :
  Inv w -> pending l = [] ->
  Forall (obj_ok inflate w) objs -> NoDup (map okey objs) -> (forall o, In o objs -> ~ In (okey o) (map rkey (db w))) ->
  let w' := crash (run_events (w, l) (firstn m (p_pack_one w id objs fs clean))) in
  Inv w' /\ (forall k c, stored w k = Some c -> stored w' k = Some c) /\
  (fs = true -> Inv (power_loss w) ->
     Inv (power_loss w') /\ (forall k c, stored (power_loss w) k = Some c -> stored (power_loss w') k = Some c)).
Proof.
  intros HI Hpend Hobjs Hnd Hfresh. cbn zeta. unfold crash.
  destruct (pack_one_always w l id objs fs clean HI Hpend Hobjs Hnd Hfresh m) as (A & B & C).
  split; [exact A|]. split.
  - intros k c Hs. exact (stored_preserved H inflate H_inj w _ k c HI A B Hs).
  - intros F P. destruct (C F P) as (C1 & C2). split; [exact C1|].
    intros k c Hs. exact (stored_preserved H inflate H_inj (power_loss w) _ k c P C1 C2 Hs).
Qed.

(* the completed call indexes every object of the batch *)
Theorem pack_one_indexes_all w l id objs fs clean :
  Inv w -> pending l = [] ->
  Forall (obj_ok inflate w) objs -> NoDup (map okey objs) -> (forall o, In o objs -> ~ In (okey o) (map rkey (db w))) ->
  forall o, In o objs -> exists f, get_loose w (okey o) = Some f /\
    stored (crash (run_events (w, l) (p_pack_one w id objs fs clean))) (okey o) = Some (fdata f).
Proof.
  intros HI Hpend Hobjs Hnd Hfresh o Ho.
  rewrite Forall_forall in Hobjs. destruct (Hobjs o Ho) as (f & Hg & _). exists f. split; [exact Hg|].
  pose proof (pack_one_crash_safe w l id objs fs clean (length (p_pack_one w id objs fs clean)) HI Hpend
                (proj2 (Forall_forall _ _) Hobjs) Hnd Hfresh) as (_ & Hst & _).
  rewrite firstn_all in Hst. apply Hst.
  unfold Store.stored. destruct (find_row (db w) (okey o)) as [r|] eqn:F.
  - exfalso. apply find_row_some in F as [Hin Hrk]. apply (Hfresh o Ho). rewrite <- Hrk. apply in_map; auto.
  - rewrite Hg. reflexivity.
Qed.

End Thm.
