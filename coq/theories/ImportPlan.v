(* ImportPlan.v - the bounded content cache of Container.import_objects as a pure function: how the objects the source yields
   (in that order, with their sizes) are grouped into calls of add_streamed_object_to_pack (one object larger than the budget, written
   at once) and add_objects_to_pack (a flush of the cache), and theorems: every yielded object is handed over exactly once; a flush
   never holds more than the budget; nothing is flushed empty. *)
From Coq Require Import List Arith Bool Lia Permutation.
Import ListNotations.

Section Plan.
Context {A : Type}.
Variable size : A -> nat.

Inductive batch := Direct (o : A) | Bulk (os : list A).

Definition flush (cache : list A) : list batch := match cache with [] => [] | _ => [Bulk cache] end.

(*  for key, stream, meta in triplets:
        if meta.size > target:                  -> add_streamed_object_to_pack(stream)           (cache untouched)
        elif cache_size + meta.size > target:   -> flush the cache if not empty; cache = {key: content}; cache_size = meta.size
            (the source has `cache_size += meta.size` after `cache_size = 0`)
        else:                                   -> cache[key] = content; cache_size += meta.size
    if cache: flush *)
Fixpoint plan (budget : nat) (cache : list A) (csize : nat) (objs : list A) : list batch :=
  match objs with
  | [] => flush cache
  | o :: t =>
      if budget <? size o then Direct o :: plan budget cache csize t
      else if budget <? csize + size o then flush cache ++ plan budget [o] (size o) t
      else plan budget (cache ++ [o]) (csize + size o) t
  end.

Definition objs_of (b : batch) : list A := match b with Direct o => [o] | Bulk os => os end.
Definition total (l : list A) : nat := fold_right (fun o n => size o + n) 0 l.

Lemma total_app a b : total (a ++ b) = total a + total b.
Proof. induction a as [|x t IH]; cbn; [reflexivity|]. unfold total in *. rewrite IH. lia. Qed.

Lemma flush_objs cache : concat (map objs_of (flush cache)) = cache.
Proof. destruct cache; cbn; [reflexivity|]. rewrite app_nil_r. reflexivity. Qed.

(* every yielded object is handed to the destination exactly once *)
Theorem plan_complete budget : forall objs cache csize,
  Permutation (concat (map objs_of (plan budget cache csize objs))) (cache ++ objs).
Proof.
  induction objs as [|o t IH]; intros cache csize; cbn [plan].
  - rewrite flush_objs, app_nil_r. apply Permutation_refl.
  - destruct (budget <? size o).
    + cbn [map concat objs_of app]. eapply perm_trans; [apply perm_skip; apply IH|].
      change (o :: cache ++ t) with ([o] ++ cache ++ t). change (cache ++ o :: t) with (cache ++ [o] ++ t).
      rewrite !app_assoc. apply Permutation_app_tail. apply Permutation_app_comm.
    + destruct (budget <? csize + size o).
      * rewrite map_app, concat_app, flush_objs. apply Permutation_app_head. exact (IH [o] (size o)).
      * eapply perm_trans; [apply IH|]. rewrite <- app_assoc. apply Permutation_refl.
Qed.

(* a flush never exceeds the budget, a direct transfer is always larger than the budget, nothing is flushed empty *)
Theorem plan_bounds budget : forall objs cache csize,
  csize = total cache -> csize <= budget ->
  Forall (fun b => match b with
                   | Direct o => budget < size o
                   | Bulk os => os <> [] /\ total os <= budget
                   end) (plan budget cache csize objs).
Proof.
  assert (Hflush : forall cache, total cache <= budget ->
            Forall (fun b => match b with Direct o => budget < size o | Bulk os => os <> [] /\ total os <= budget end) (flush cache)).
  { intros cache Hb. destruct cache; cbn [flush]; constructor; [|constructor]. split; [discriminate|exact Hb]. }
  induction objs as [|o t IH]; intros cache csize Hc Hb; cbn [plan].
  - apply Hflush. lia.
  - destruct (Nat.ltb_spec budget (size o)) as [Hbig|Hsmall].
    + constructor; [exact Hbig|]. apply IH; auto.
    + destruct (Nat.ltb_spec budget (csize + size o)) as [Hover|Hfit].
      * apply Forall_app. split; [apply Hflush; lia|]. apply IH; [cbn; lia|lia].
      * apply IH; [rewrite total_app; cbn; lia|lia].
Qed.

(* order: within the cache path the objects keep their order; the relative order of the batches is the order of their last element *)
Theorem plan_no_direct_is_order_preserving budget : forall objs cache csize,
  Forall (fun o => size o <= budget) objs ->
  concat (map objs_of (plan budget cache csize objs)) = cache ++ objs.
Proof.
  induction objs as [|o t IH]; intros cache csize Hall; cbn [plan].
  - rewrite flush_objs, app_nil_r. reflexivity.
  - inversion Hall as [|? ? Ho Ht]; subst.
    destruct (Nat.ltb_spec budget (size o)) as [Hbig|_]; [lia|].
    destruct (budget <? csize + size o).
    + rewrite map_app, concat_app, flush_objs. rewrite (IH [o] (size o) Ht). reflexivity.
    + rewrite (IH _ _ Ht). rewrite <- app_assoc. reflexivity.
Qed.

End Plan.
