(* Merge.v - model of utils.detect_where_sorted / merge_sorted (the sorted-merge helpers behind the
   large-request lookup path, pack_all_loose, clean_storage and import_objects).

   Left elements are pairs (key, payload): the Python callers pass rows and `left_key = lambda x: x[k]`.
   Right elements are bare keys.  Output items: (key, Some payload) when the left element is yielded,
   (key, None) when the right one is.  The state machine `body` is a line-by-line transcription of one
   iteration of the `while not (left_exhausted and right_exhausted)` loop. *)
From Coq Require Import List ZArith Lia Bool Sorting.Sorted.
Import ListNotations.
Open Scope Z_scope.

Inductive loc := LEFTONLY | BOTH | RIGHTONLY.
Inductive status := Ok | ErrLeft | ErrRight | OutOfFuel.

Definition lelem := (Z * Z)%type.
Definition item := (Z * option Z * loc)%type.
Definition yl (x : lelem) (w : loc) : item := (fst x, Some (snd x), w).
Definition yr (x : Z) : item := (x, None, RIGHTONLY).

Record st := { ll : lelem; lr : Z; restl : list lelem; restr : list Z; lex : bool; rex : bool; nowl : bool }.

Definition body (s : st) : item * (st + status) :=
  let kl := fst (ll s) in
  let '(advance_both, out, nowl1) :=
    if nowl s then
      if rex s then (false, yl (ll s) LEFTONLY, true)
      else if kl =? lr s then (true, yl (ll s) BOTH, true)
      else if kl <? lr s then (false, yl (ll s) LEFTONLY, true)
      else (false, yr (lr s), false)
    else if lex s then (false, yr (lr s), false)
    else if kl =? lr s then (true, yl (ll s) BOTH, false)
    else if kl >? lr s then (false, yr (lr s), false)
    else (false, yl (ll s) LEFTONLY, true) in
  let r1 : (lelem * list lelem * bool * bool) + status :=
    if nowl1 || advance_both then
      match restl s with
      | x :: t => if fst x <=? kl then inr ErrLeft else inl (x, t, lex s, nowl1)
      | [] => inl (ll s, [], true, false)
      end
    else inl (ll s, restl s, lex s, nowl1) in
  match r1 with
  | inr e => (out, inr e)
  | inl (ll', restl', lex', nn1) =>
    let r2 : (Z * list Z * bool * bool) + status :=
      if negb nowl1 || advance_both then
        match restr s with
        | x :: t => if x <=? lr s then inr ErrRight else inl (x, t, rex s, nn1)
        | [] => inl (lr s, [], true, true)
        end
      else inl (lr s, restr s, rex s, nn1) in
    match r2 with
    | inr e => (out, inr e)
    | inl (lr', restr', rex', nn2) =>
      (out, inl {| ll := ll'; lr := lr'; restl := restl'; restr := restr'; lex := lex'; rex := rex'; nowl := nn2 |})
    end
  end.

Fixpoint loop (fuel : nat) (s : st) : list item * status :=
  if lex s && rex s then ([], Ok) else
  match fuel with
  | O => ([], OutOfFuel)
  | S f => match body s with
           | (o, inr e) => ([o], e)
           | (o, inl s') => let '(os, e) := loop f s' in (o :: os, e)
           end
  end.

Definition dws (L : list lelem) (R : list Z) : list item * status :=
  let '(ll0, restl0, lex0) := match L with x :: t => (x, t, false) | [] => ((0,0), [], true) end in
  let '(lr0, restr0, rex0) := match R with x :: t => (x, t, false) | [] => (0, [], true) end in
  if lex0 && rex0 then ([], Ok) else
  let nowl0 := if lex0 || (negb rex0 && (fst ll0 >? lr0)) then false else true in
  loop (length L + length R + 1)
       {| ll := ll0; lr := lr0; restl := restl0; restr := restr0; lex := lex0; rex := rex0; nowl := nowl0 |}.

(* merge_sorted(i1, i2): detect_where_sorted without left_key, items only *)
Definition merge_sorted (L R : list Z) : list Z * status :=
  let '(o, e) := dws (map (fun x => (x, x)) L) R in (map (fun i => fst (fst i)) o, e).

(* specification: plain merge with classification *)
Fixpoint merge_spec (l : list lelem) : list Z -> list item :=
  match l with
  | [] => fun r => map yr r
  | a :: l' =>
      fix aux (r : list Z) : list item :=
        match r with
        | [] => map (fun x => yl x LEFTONLY) (a :: l')
        | b :: r' => if fst a =? b then yl a BOTH :: merge_spec l' r'
                     else if fst a <? b then yl a LEFTONLY :: merge_spec l' (b :: r')
                     else yr b :: aux r'
        end
  end.

(* the keys of two lists, merged: what a set-union sorted() would give *)
Fixpoint union_spec (l : list Z) : list Z -> list Z :=
  match l with
  | [] => fun r => r
  | a :: l' =>
      fix aux (r : list Z) : list Z :=
        match r with
        | [] => a :: l'
        | b :: r' => if a =? b then a :: union_spec l' r'
                     else if a <? b then a :: union_spec l' (b :: r')
                     else b :: aux r'
        end
  end.
