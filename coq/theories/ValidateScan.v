(* ValidateScan.v - Container.validate / _validate_hashkeys_pack as the code runs it: the pack ids found in the index in increasing
   order; per pack the entries ORDER BY offset, each re-read (hash and size of what the reader returns) and compared with the RUNNING
   end position of the previous entry (`offset < current_pos`, `current_pos = offset + length`); the loose files re-hashed.
   `rd r` is what compute_hash_and_size returns over the object reader of entry r (None: the read raises, and so does validate).
   Theorem: a clean report of this scan implies the abstract cleanliness Validate.validate_b - every entry re-reads as its key and size
   and ALL pairs of entries are disjoint, not only the neighbours the scan compares - hence (Validate.validate_no_false_negative) every
   visible key reads back right.  The overlap argument does not depend on how ties on the offset are ordered. *)
From Coq Require Import List ZArith NArith Arith Bool Lia Sorting.Sorted Sorting.Permutation.
From DOS Require Import Base Merge Store StoreProofs StoreLemmas Validate Lookup LookupProofs.
Import ListNotations.
Close Scope Z_scope.

Section Scan.
Variable rd : row -> option (key * nat).

Definition issues := (list key * list key * list key)%type.      (* invalid_hashes_packed, invalid_sizes_packed, overlapping_packed *)

Fixpoint vscan (cur : nat) (rs : list row) : option issues :=
  match rs with
  | [] => Some ([], [], [])
  | r :: t =>
      match rd r, vscan (roff r + rlen r) t with
      | Some (h, sz), Some (ih, isz, ov) =>
          Some ((if N.eqb h (rkey r) then ih else rkey r :: ih),
                (if Nat.eqb sz (rsize r) then isz else rkey r :: isz),
                (if roff r <? cur then rkey r :: ov else ov))
      | _, _ => None
      end
  end.

Definition by_offset (rs : list row) : list row := isort (fun r => Z.of_nat (roff r)) rs.
Definition vpack (d : list row) (id : Z) : option issues := vscan 0 (by_offset (of_pack id d)).
Definition pack_ids (d : list row) : list Z := isort (fun z => z) (first_ids [] d).

Fixpoint vpacks (d : list row) (ids : list Z) : option issues :=
  match ids with
  | [] => Some ([], [], [])
  | id :: t => match vpack d id, vpacks d t with
               | Some (a, b, c), Some (a', b', c') => Some (a ++ a', b ++ b', c ++ c')
               | _, _ => None
               end
  end.

(* the whole report: the three packed lists and invalid_hashes_loose (lh: the digest recomputed for a loose file) *)
Definition validate_f (d : list row) (loose_names : list key) (lh : key -> key) : option (issues * list key) :=
  match vpacks d (pack_ids d) with
  | Some i => Some (i, filter (fun k => negb (N.eqb (lh k) k)) loose_names)
  | None => None
  end.

(* ---------- a clean scan ---------- *)
Fixpoint chain_ok (cur : nat) (rs : list row) : Prop :=
  match rs with [] => True | r :: t => cur <= roff r /\ chain_ok (roff r + rlen r) t end.

Lemma vscan_clean : forall rs cur, vscan cur rs = Some ([], [], []) ->
  Forall (fun r => rd r = Some (rkey r, rsize r)) rs /\ chain_ok cur rs.
Proof.
  induction rs as [|r t IH]; intros cur Hv; [split; [constructor|exact I]|]. cbn [vscan] in Hv.
  destruct (rd r) as [[h sz]|] eqn:E; [|discriminate].
  destruct (vscan (roff r + rlen r) t) as [[[ih isz] ov]|] eqn:Et; [|discriminate].
  injection Hv as H1 H2 H3. revert H1 H2 H3.
  destruct (N.eqb_spec h (rkey r)) as [Eh|]; destruct (Nat.eqb_spec sz (rsize r)) as [Es|]; destruct (Nat.ltb_spec (roff r) cur);
    intros H1 H2 H3; try discriminate. subst.
  destruct (IH _ Et) as [Hf Hc]. split; [constructor; [exact E|exact Hf]|cbn [chain_ok]; split; [assumption|exact Hc]].
Qed.

Lemma chain_sorted_fwd : forall rs cur,
  chain_ok cur rs -> StronglySorted (fun a b => roff a <= roff b) rs -> Forall (fun x => cur <= roff x) rs.
Proof.
  induction rs as [|r t IH]; intros cur Hc Hs; [constructor|]. destruct Hc as [H0 Hc]. inversion Hs as [|? ? Hst Hall]; subst.
  constructor; [exact H0|]. rewrite Forall_forall in *. intros x Hx. specialize (Hall x Hx). lia.
Qed.

(* in a clean, offset-sorted scan EVERY earlier entry ends before EVERY later one starts *)
Lemma chain_all_pairs : forall rs cur,
  chain_ok cur rs -> StronglySorted (fun a b => roff a <= roff b) rs ->
  forall a b pre mid post, rs = pre ++ a :: mid ++ b :: post -> roff a + rlen a <= roff b.
Proof.
  induction rs as [|r t IH]; intros cur Hc Hs a b pre mid post E; [destruct pre; discriminate|].
  destruct Hc as [_ Hc]. inversion Hs as [|? ? Hst Hall]; subst.
  destruct pre as [|p pre']; cbn in E; inversion E; subst.
  - pose proof (chain_sorted_fwd _ _ Hc Hst) as Hf. rewrite Forall_forall in Hf. apply Hf. apply in_or_app. right. left. reflexivity.
  - eapply IH; eauto.
Qed.
End Scan.

Section Link.
Variable H : bytes -> key.
Variable inflate : bytes -> option bytes.

(* the reader of the library over entry r of world w *)
Definition rd_of (w : world) (r : row) : option (key * nat) :=
  match read_impl inflate w r with Some c => Some (H c, length c) | None => None end.

Lemma sorted_le_strong (l : list row) : Sorted (le_f (fun r => Z.of_nat (roff r))) l -> StronglySorted (fun a b => roff a <= roff b) l.
Proof.
  intros Hs. apply Sorted_StronglySorted in Hs.
  - induction Hs as [|a t Ht IHt Hall]; constructor; [exact IHt|]. rewrite Forall_forall in *. intros x Hx. specialize (Hall x Hx). unfold le_f in Hall. lia.
  - intros x y z. unfold le_f. lia.
Qed.

Lemma vpacks_clean d rd0 : forall ids, vpacks rd0 d ids = Some ([], [], []) -> forall id, In id ids -> vpack rd0 d id = Some ([], [], []).
Proof.
  induction ids as [|i t IH]; intros Hv id Hin; [destruct Hin|]. cbn in Hv.
  destruct (vpack rd0 d i) as [[[a b] c]|] eqn:E; [|discriminate].
  destruct (vpacks rd0 d t) as [[[a' b'] c']|] eqn:Et; [|discriminate].
  injection Hv as H1 H2 H3. apply app_eq_nil in H1 as [-> ->]. apply app_eq_nil in H2 as [-> ->]. apply app_eq_nil in H3 as [-> ->].
  destruct Hin as [<-|Hin]; [exact E|apply IH; auto].
Qed.

Lemma two_positions {A} (l : list A) a b : In a l -> In b l -> a <> b ->
  (exists pre mid post, l = pre ++ a :: mid ++ b :: post) \/ (exists pre mid post, l = pre ++ b :: mid ++ a :: post).
Proof.
  intros Ha Hb Hne. destruct (in_split _ _ Ha) as (l1 & l2 & E). subst l.
  apply in_app_or in Hb as [Hb|[Hb|Hb]]; [|congruence|].
  - right. destruct (in_split _ _ Hb) as (p & q & E). subst l1. exists p, q, l2. rewrite <- app_assoc. reflexivity.
  - left. destruct (in_split _ _ Hb) as (p & q & E). subst l2. exists l1, p, q. reflexivity.
Qed.

Theorem clean_scan_is_clean w :
  NoDup (map rkey (db w)) ->
  validate_f (rd_of w) (db w) (map fst (loose w)) (fun k => match get_loose w k with Some f => H (fdata f) | None => k end) = Some (([], [], []), []) ->
  NoDup (map fst (loose w)) ->
  validate_b H inflate w = true.
Proof.
  intros Hnd Hv Hndl. unfold validate_f in Hv.
  destruct (vpacks (rd_of w) (db w) (pack_ids (db w))) as [i|] eqn:Ep; [|discriminate].
  injection Hv as Hi Hl. subst i.
  assert (Hpack : forall r, In r (db w) -> vpack (rd_of w) (db w) (rpack r) = Some ([], [], [])).
  { intros r Hr. apply (vpacks_clean _ _ _ Ep). unfold pack_ids. apply isort_in. apply first_ids_in. split; [apply in_map; exact Hr|intros []]. }
  assert (Hrow : forall r, In r (db w) -> rd_of w r = Some (rkey r, rsize r)).
  { intros r Hr. specialize (Hpack r Hr). unfold vpack in Hpack. apply vscan_clean in Hpack as [Hf _].
    rewrite Forall_forall in Hf. apply Hf. unfold by_offset. apply isort_in. unfold of_pack. apply filter_In. split; [exact Hr|apply Z.eqb_refl]. }
  assert (Hdis : forall a b, In a (db w) -> In b (db w) -> a <> b -> disjoint_b a b = true).
  { intros a b Ha Hb Hne. unfold disjoint_b. destruct (Z.eqb_spec (rpack a) (rpack b)) as [Hp|Hp]; [|reflexivity]. cbn [negb orb].
    specialize (Hpack a Ha). unfold vpack in Hpack. apply vscan_clean in Hpack as [_ Hc].
    set (S := by_offset (of_pack (rpack a) (db w))) in *.
    assert (HS : StronglySorted (fun x y => roff x <= roff y) S) by (apply sorted_le_strong; apply isort_sorted_le).
    assert (HaS : In a S) by (apply isort_in; apply filter_In; split; [exact Ha|apply Z.eqb_refl]).
    assert (HbS : In b S) by (apply isort_in; apply filter_In; split; [exact Hb|apply Z.eqb_eq; symmetry; exact Hp]).
    destruct (two_positions S a b HaS HbS Hne) as [(p & m & q & E)|(p & m & q & E)].
    - pose proof (chain_all_pairs S 0 Hc HS a b p m q E) as Hle. apply Nat.leb_le in Hle. rewrite Hle. reflexivity.
    - pose proof (chain_all_pairs S 0 Hc HS b a p m q E) as Hle. apply Nat.leb_le in Hle. rewrite Hle. apply orb_true_r. }
  unfold validate_b. apply andb_true_iff. split; [apply andb_true_iff; split|].
  - apply forallb_forall. intros r Hr. specialize (Hrow r Hr). unfold rd_of in Hrow. unfold validate_row.
    destruct (read_impl inflate w r) as [c|]; [|discriminate]. injection Hrow as Hh Hs. rewrite Hh, Hs, N.eqb_refl, Nat.eqb_refl. reflexivity.
  - clear Hpack Hrow Ep. induction (db w) as [|x t IH]; [reflexivity|]. cbn. cbn in Hnd. inversion Hnd as [|? ? Hni Hnd']; subst.
    apply andb_true_iff. split.
    + apply forallb_forall. intros y Hy. apply Hdis; [left; reflexivity|right; exact Hy|].
      intros ->. apply Hni. apply in_map. exact Hy.
    + apply IH; [exact Hnd'|]. intros a b Ha Hb. apply Hdis; right; assumption.
  - apply forallb_forall. intros [k f] Hin. cbn [fst snd].
    assert (Hk : In k (map fst (loose w))) by (apply in_map_iff; exists (k, f); auto).
    assert (Hg : get_loose w k = Some f).
    { unfold get_loose. clear -Hin Hndl. induction (loose w) as [|[a v] t IH]; [destruct Hin|]. cbn in *. inversion Hndl as [|? ? Hni Hnd']; subst.
      destruct Hin as [E|Hin]; [inversion E; subst; rewrite N.eqb_refl; reflexivity|].
      destruct (N.eqb_spec k a) as [->|_]; [exfalso; apply Hni; apply in_map_iff; exists (a, f); auto|apply IH; assumption]. }
    destruct (N.eqb (H (fdata f)) k) eqn:E; [reflexivity|]. exfalso.
    assert (Hin' : In k (@nil key)).
    { rewrite <- Hl. apply filter_In. split; [exact Hk|]. rewrite Hg, E. reflexivity. }
    destruct Hin'.
Qed.
End Link.
