(* Extract.v - extraction of the executable model for the correspondence check.
   ExtrOcamlBasic only; N / Z / nat / positive stay Coq datatypes. No Extract Constant, no Extract Inductive here. *)
From Coq Require Import Extraction ExtrOcamlBasic.
From DOS Require Import Base Merge Chunks PickPack Compress Streams Store MonoStep Programs ImportPlan Layout Lookup LookupFd Backup Totals ValidateScan.
Extraction Language OCaml.
Set Extraction Optimize.
Extraction "extracted/model.ml" Merge.dws Merge.merge_sorted Chunks.chunks Chunks.paging
  Streams.bio_step Streams.fio_step Streams.por_init Streams.por_step Streams.por_step0 Streams.zsd_init Streams.zsd_step Streams.run_ops
  Store.monitor Store.run_events Store.inv_b Store.preserved_b Store.power_loss Store.stored Store.local0 MonoStep.all_ok_b MonoStep.c13_all_b PickPack.pick PickPack.override Compress.estimate Programs.p_add_loose Programs.p_pack_one Programs.p_clean Programs.p_delete Programs.p_repack_one Programs.p_vacuum Programs.p_add_to_pack Programs.p_import ImportPlan.plan Layout.segs Lookup.lookup_bulk LookupFd.lookup_events Backup.backup_phases Totals.totals_of ValidateScan.validate_f.
